from regbase import K, X

ENC = ["src/methods/highest_lowest.rs: Highest/Lowest/HighestLowestDelta::{new,next,peek}",
       "src/methods/highest_lowest_index.rs: HighestIndex/LowestIndex::{new,next,peek}",
       "src/methods/smm.rs: SMM::{new,next,peek}, find_index, find_insert_index, next_half, get",
       "src/core/window.rs: Window::{new,push,iter}, WindowIterator::next"]


def x_jobs():
    j = []
    for e, name in (("highest", "Highest"), ("lowest", "Lowest"), ("delta", "HighestLowestDelta"),
                    ("highest_index", "HighestIndex"), ("lowest_index", "LowestIndex"), ("smm", "SMM")):
        for n in (1, 2, 3, 4):
            t = n + 2
            tier = "q"
            core = True
            cost = {1: 1, 2: 2, 3: 15, 4: 60}[n]
            if e == "smm" and n == 4:
                t = 5
                cost = 400
                tier = "t"
                core = False
            j.append(X("c04_" + e, {"n": n, "t": t, "mode": "fp", "max_paths": 400000},
                       "%s length %d, %d steps after an independent construction value: every order pattern of the inputs incl. ties and signed zeros ((value, zero-sign) encoding); output == definition (numeric ==, indices exact) at every step, next and peek" % (name, n, t),
                       tier=tier, core=core, cost=cost, timeout=1500, encodes=ENC))
        if e != "smm":
            for n in (5, 6):
                j.append(X("c04_" + e, {"n": n, "t": n + 2, "mode": "fp", "max_paths": 400000},
                           "%s length %d, %d steps (deepening)" % (name, n, n + 2), tier="t", core=False, cost=300, timeout=1500, encodes=ENC))
    return j


def jobs():
    j = x_jobs()
    try:
        import c04_k
        j += c04_k.k_jobs()
    except ImportError:
        pass
    return j


PROP = {
    "id": "C04",
    "jobs": jobs,
    "bounds": {
        "quick": "X/fp: every method at lengths 1..4, n+2 steps, all order patterns of finite non-NaN inputs incl. ties and +0/-0; K: see harness list",
        "thorough": "as quick plus lengths 5, 6 (path budget 400000; the largest completed length is in the samples) and SMM length 4 at 5 steps",
    },
    "outside": ["lengths above 6 (path explosion: the number of order patterns grows factorially)", "NaN / infinite inputs (rejected by the methods' own asserts)",
                "MedianAbsDev's arithmetic around the median is decided under C02"],
    "assumptions": ["floats are modelled exactly for compare/select code as (real value, sign-of-zero bit); arithmetic on selected values (mean of the two middle elements, highest - lowest) is real arithmetic",
                    "every counterexample is replayed on the native build before it is reported",
                    "translator validation: the interpreter in concrete f64 mode and the native build must agree bit for bit on two concrete input sets per job"],
}
