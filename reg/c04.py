from regbase import K, X

ENC = ["src/methods/highest_lowest.rs: Highest/Lowest/HighestLowestDelta::{new,next,peek}",
       "src/methods/highest_lowest_index.rs: HighestIndex/LowestIndex::{new,next,peek}",
       "src/methods/smm.rs: SMM::{new,next,peek}, find_index, find_insert_index, next_half, get",
       "src/core/window.rs: Window::{new,push,iter}, WindowIterator::next"]


def x_jobs():
    j = []
    for e, name in (("highest", "Highest"), ("lowest", "Lowest"), ("delta", "HighestLowestDelta"),
                    ("highest_index", "HighestIndex"), ("lowest_index", "LowestIndex")):
        for n in (1, 2, 3, 4, 5, 6, 8):
            t = n + 4
            quick = n <= 5 or (n == 6 and e in ("highest", "lowest"))
            args = {"n": n, "t": t, "mode": "fp", "max_paths": 400000}
            if e.endswith("_index"):
                # the arg-extremum trackers are decided faster by forking on order patterns than by merging
                # (merged index terms: length 4, 8 steps took 1200 s; forked length 4, 6 steps: 1.3 s)
                if n > 5:
                    continue
                t = n + 2
                args = {"n": n, "t": t, "mode": "fp", "max_paths": 400000, "no_merge": 1}
                quick = n <= 4
            j.append(X("c04_" + e, args,
                       "%s length %d, %d steps after an independent construction value: every order pattern of the inputs incl. ties and signed zeros ((value, zero-sign) encoding, symbolic branches merged); output == definition (numeric ==, indices exact) at every step, next and peek" % (name, n, t),
                       tier="q" if quick else "t", core=quick, cost=3 + 2 * n * n, encodes=ENC))
    for n in (1, 2, 3, 4):
        t = n + 2
        tier, core, cost = "q", True, {1: 1, 2: 5, 3: 150, 4: 600}[n]
        if n == 4:
            t, tier, core = 5, "t", False
        j.append(X("c04_smm", {"n": n, "t": t, "mode": "fp", "max_paths": 400000},
                   "SMM length %d, %d steps after an independent construction value: every order pattern incl. ties and signed zeros; output == median of the last n inputs at every step, next and peek" % (n, t),
                   tier=tier, core=core, cost=cost, timeout=2400, encodes=ENC))
    return j


def jobs():
    j = x_jobs()
    try:
        import c04_k
        j += c04_k.k_jobs()
    except ImportError:
        pass
    return j


PROP = {
    "id": "C04",
    "jobs": jobs,
    "bounds": {
        "quick": "X/fp: Highest/Lowest/Delta/HighestIndex/LowestIndex at lengths 1..5 (6), n+4 steps; SMM at lengths 1..3, n+2 steps; all order patterns of finite non-NaN inputs incl. ties and +0/-0; K: see harness list",
        "thorough": "as quick plus lengths 6, 8 and SMM length 4 at 5 steps (best effort)",
    },
    "outside": ["lengths above 6 (path explosion: the number of order patterns grows factorially)", "NaN / infinite inputs (rejected by the methods' own asserts)",
                "MedianAbsDev's arithmetic around the median is decided under C02"],
    "assumptions": ["floats are modelled exactly for compare/select code as (real value, sign-of-zero bit); arithmetic on selected values (mean of the two middle elements, highest - lowest) is real arithmetic",
                    "every counterexample is replayed on the native build before it is reported",
                    "translator validation: the interpreter in concrete f64 mode and the native build must agree bit for bit on two concrete input sets per job"],
}
