from regbase import K, X, S

METHODS = ["SMA", "WMA", "EMA", "DMA", "TMA", "DEMA", "TEMA", "RMA", "WSMA", "HMA", "LinReg", "SWMA", "TRIMA", "Vidya", "Integral", "Derivative", "Momentum",
           "RateOfChange", "StDev", "MeanAbsDev", "CCI", "LinearVolatility", "Past"]
SELECT = ["Highest", "Lowest", "HighestLowestDelta"]
INDICATORS = ["Aroon", "AverageDirectionalIndex", "AwesomeOscillator", "ChaikinMoneyFlow", "ChaikinOscillator", "ChandeMomentumOscillator", "CommodityChannelIndex",
              "CoppockCurve", "DetrendedPriceOscillator", "DonchianChannel", "EaseOfMovement", "EldersForceIndex", "Envelopes", "HullMovingAverage", "KeltnerChannel",
              "KlingerVolumeOscillator", "KnowSureThing", "MACD", "MomentumIndex", "MoneyFlowIndex", "ParabolicSAR", "PivotReversalStrategy", "PriceChannelStrategy",
              "RelativeStrengthIndex", "RelativeVigorIndex", "SMIErgodicIndicator", "Trix", "TrueStrengthIndex", "WoodiesCCI"]
ENC = ["src/methods/*.rs: new/next of the named method", "src/core/window.rs"]


def x_jobs():
    j = [S("clone_is_deep", "every method / indicator / config struct and enum derives Clone, no hand-written Clone, no Rc/RefCell/Cell/static mut/thread_local/raw pointer outside the two known unsafe sites: the executor's deep copy is what Clone does")]
    for m in METHODS:
        n = 2 if m in ("HMA", "LinReg", "StDev") else 1
        for (nn, jj, t) in ((n, 1, 3), (3, 2, 5)):
            j.append(X("c09_method", {"kind": m, "n": nn, "j": jj, "t": t}, "%s length %d: two identical instances agree on %d symbolic steps; a clone taken after %d steps continues identically while the original is fed different input, and the original equals an undisturbed instance" % (m, nn, t, jj), encodes=ENC))
    for m in SELECT:
        j.append(X("c09_method", {"kind": m, "n": 2, "j": 1, "t": 3, "mode": "fp"}, "%s length 2: determinism and clone independence, exact (fp mode)" % m, cost=10, encodes=ENC))
    j.append(X("c09_method", {"kind": "SMM", "n": 2, "j": 1, "t": 3, "mode": "fp", "max_paths": 200000}, "SMM length 2: determinism and clone independence (fp mode)", cost=60, encodes=ENC))
    PEEK = ["SMA", "WMA", "EMA", "DMA", "TMA", "DEMA", "TEMA", "RMA", "WSMA", "HMA", "LinReg", "SWMA", "TRIMA", "Vidya", "Integral", "StDev", "MeanAbsDev", "MedianAbsDev", "LinearVolatility"]
    for m in PEEK:
        n = 2 if m in ("HMA", "LinReg", "StDev", "MedianAbsDev") else 1
        for (nn, t) in ((n, 4), (n + 1, 5)):
            j.append(X("c09_peek", {"kind": m, "n": nn, "t": t}, "%s length %d, %d symbolic steps (plateaus, exact returns included: the inputs are unconstrained): peek() == the value next just returned, also through &T; an instance that is never peeked produces the same outputs" % (m, nn, t), cost=5, encodes=ENC + ["src/methods/*.rs: Peekable::peek of the named method"]))
    for m in SELECT + ["SMM"]:
        j.append(X("c09_peek", {"kind": m, "n": 2, "t": 4, "mode": "fp", "max_paths": 200000}, "%s length 2, 4 symbolic steps, every order pattern incl. ties and +-0 (fp mode): peek() == the value next just returned" % m, cost=30, encodes=ENC))
    for ind in INDICATORS:
        j.append(X("ind_stream_dispatch", {"kind": ind, "t": 3, "max_paths": 20000}, "%s (default configuration), 3 valid symbolic candles: result shape equals size(), two identically built instances agree, a clone taken before the last step continues identically, no panic on any feasible path" % ind, cost=15, timeout=1200,
                   encodes=["src/indicators/*.rs: %s::{init,next}" % ind, "src/core/indicator/result.rs", "src/helpers/methods.rs", "src/methods/*.rs"]))
        if ind == "MoneyFlowIndex":
            # typical price * volume makes the path conditions non-linear: 3 steps are decided on an idle machine only
            j[-1].core = False
            j[-1].tier = "t"
            import copy
            q = copy.copy(j[-1])
            q.args = dict(q.args, t=3, cvol=1)
            q.core, q.tier = True, "q"
            q.bounds = q.bounds + " — volumes fixed to 1, 2, 3, .. (price * volume stays linear)"
            j.append(q)
    return j


def jobs():
    j = x_jobs()
    try:
        import c09_k
        j += c09_k.k_jobs()
    except ImportError:
        pass
    return j


PROP = {
    "id": "C09",
    "jobs": jobs,
    "bounds": {"quick": "X: 27 methods at lengths <= 3 (3-5 symbolic steps, clone after 1-2 steps), 29 indicators in their default configuration (3 steps); K: generic combinators by parametricity over a logging method (see harness list)", "thorough": "as quick"},
    "outside": ["indicators whose default configuration does not finish at 3 symbolic steps (BollingerBands, ChandeKrollStop, FisherTransform, IchimokuCloud, Kaufman, StochasticOscillator, TrendStrengthIndex): covered with shrunk periods under C05 only",
                "Clone of element types other than the ones instantiated", "bit-identical is modelled as equal real values (real mode) / equal value and zero sign (fp mode)"],
    "assumptions": ["derive(Clone) is a deep copy: discharged syntactically by the scan job on every run", "translator validation per job; native replay before VIOLATION"],
}
