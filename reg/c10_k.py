"""C10 — invalid parameters are rejected with an error; constructors never panic (K part).

Harnesses: kani/src/c10_ctor.rs.  Naming:
  c10_<m>_new_rng        method constructor, length symbolic over the stated range, first value symbolic (any_val)
  c10_z_<m>_new          same, first value concrete +0.0 (allocator zero-fill path: no fill loop)
  c10_<m>_new_255 / _0 / _sum254   the value class for which the real constructor panics (known finding)
  c10_q_class_*          all such classes of the method constructors / of MA::init in one harness (quick tier:
                         the driver replays every counterexample natively, which costs minutes per harness)
  c10_ma_init_<kind>_rng / _255 / _0   MA::init per kind
  c10_<ind>_validate     IndicatorConfig::validate, every field unrestricted
  c10_<ind>_init_s254 / _s255 / _s_sum254   init with Window::new stubbed by its precondition
  c10_<ind>_init_b4 / _b255            init, real code, periods in {0..4} / {0..4,255}
  c10_<ind>_init_f254                  init, real code, periods 0..=254 (thorough)
Costs are seconds measured with 4 Kani processes on a machine under load (load average 12-22 on 16 cores).
"""
from regbase import K

M = "c10_ctor::"
WNEW = "src/core/window.rs: Window::new"

# IEEE exceptional results are not panics; C10 is about panics and integer overflow only
FLOAT_OK = [r"^NaN on (addition|subtraction|multiplication|division)", r"^arithmetic overflow on floating-point"]


def mnew(f, ty):
    return "src/methods/%s.rs: <%s as Method>::new" % (f, ty)


# key, type, file, smallest accepted length, cost of the symbolic-value harness, tier of it, registry extras
WINDOWED = [
    ("sma", "SMA", "sma", 1, 70, "q", {}),
    ("wma", "WMA", "wma", 1, 211, "t", {}),
    ("linreg", "LinReg", "lin_reg", 2, 146, "t", {}),
    ("swma", "SWMA", "swma", 1, 281, "t", {}),
    ("trima", "TRIMA", "trima", 1, 354, "t", {}),
    ("vwma", "VWMA", "vwma", 1, 84, "q", {}),
    ("momentum", "Momentum", "momentum", 1, 67, "q", {}),
    ("roc", "RateOfChange", "rate_of_change", 1, 67, "t", {}),
    ("derivative", "Derivative", "derivative", 1, 98, "t", {}),
    ("stdev", "StDev", "st_dev", 2, 184, "t", {}),
    ("meanabsdev", "MeanAbsDev", "mean_abs_dev", 1, 111, "t", {}),
    ("cci", "CCI", "cci", 1, 86, "t", {}),
    ("linvol", "LinearVolatility", "volatility", 1, 6, "q", {}),
    ("highest", "Highest", "highest_lowest", 1, 163, "t", {}),
    ("lowest", "Lowest", "highest_lowest", 1, 171, "t", {}),
    ("hldelta", "HighestLowestDelta", "highest_lowest", 1, 166, "t", {}),
    ("highestindex", "HighestIndex", "highest_lowest_index", 1, 144, "t", {}),
    ("lowestindex", "LowestIndex", "highest_lowest_index", 1, 158, "t", {}),
    ("past", "Past<ValueType>", "past", 1, 63, "q", {}),
    ("integral", "Integral", "integral", 0, 161, "t", {}),
    ("adi", "ADI", "adi", 0, 181, "t", {}),
]
# constructors whose symbolic-value harness is split into length chunks
CHUNKED = [
    # key, type, file, minok, [(suffix, lo, hi, cost, extra)]
    ("smm", "SMM", "smm", 1, [("a", 0, 64, 41, ()), ("b", 65, 128, 130, ()), ("c", 129, 192, 283, ("--solver", "kissat")),
                               ("d", 193, 254, 230, ("--solver", "kissat"))]),
    ("medianabsdev", "MedianAbsDev", "median_abs_dev", 2, [("a", 0, 64, 45, ()), ("b", 65, 128, 140, ()),
                                                           ("c", 129, 192, 290, ("--solver", "kissat")),
                                                           ("d", 193, 254, 281, ("--solver", "kissat"))]),
    ("hma", "HMA", "hma", 2, [("a", 0, 64, 175, ()), ("b", 65, 128, 370, ())]),
]
EMA_FAMILY = [("ema", "EMA"), ("dma", "DMA"), ("tma", "TMA"), ("dema", "DEMA"), ("tema", "TEMA")]

MA_KINDS = [  # name, windowed?, class suffix or None, cost of the symbolic-value harness
    ("sma", True, "255", 75), ("wma", True, "255", 215), ("hma", True, "255", None), ("rma", False, None, 8),
    ("ema", False, "255", 8), ("dma", False, "255", 8), ("tma", False, "255", 9), ("dema", False, "255", 9),
    ("tema", False, "255", 10), ("wsma", False, "0", 8), ("smm", True, "255", None), ("swma", True, "255", 285),
    ("trima", True, "255", 360), ("linreg", True, "255", 150), ("vidya", False, None, 9),
]
MA_INIT = "src/helpers/methods.rs: <MA as MovingAverageConstructor>::init"

# indicator key -> (config type, file, costs: validate, s, s255, b, b255, f or None)
IND = {
    "aroon": ("Aroon", "aroon", 5, 16, 16, 21, 23, None),
    "adx": ("AverageDirectionalIndex", "average_directional_index", 9, 100, 80, 112, 91, None),
    "awesome": ("AwesomeOscillator", "awesome_oscillator", 5, 92, 36, 51, 44, None),
    "bollinger": ("BollingerBands", "bollinger_bands", 3, 8, 6, 15, 13, None),
    "cmf": ("ChaikinMoneyFlow", "chaikin_money_flow", 2, 5, 4, 10, 9, None),
    "chaikinosc": ("ChaikinOscillator", "chaikin_oscillator", 3, 20, 18, 22, 25, None),
    "chandekroll": ("ChandeKrollStop", "chande_kroll_stop", 3, 28, 26, 49, 46, None),
    "cmo": ("ChandeMomentumOscillator", "chande_momentum_oscillator", 2, 5, 4, 6, 5, None),
    "ccindex": ("CommodityChannelIndex", "commodity_channel_index", 3, 8, 8, 11, 11, None),
    "coppock": ("CoppockCurve", "coppock_curve", 3, 142, 35, 60, 53, None),
    "dpo": ("DetrendedPriceOscillator", "detrended_price_oscillator", 3, 11, 11, 17, 18, None),
    "donchian": ("DonchianChannel", "donchian_channel", 2, 5, 8, 15, 12, None),
    "eom": ("EaseOfMovement", "ease_of_movement", 3, 25, 26, 30, 32, None),
    "efi": ("EldersForceIndex", "elders_force_index", 3, 13, 12, 26, 27, None),
    "envelopes": ("Envelopes", "envelopes", 4, 22, 21, 27, 27, None),
    "fisher": ("FisherTransform", "fisher_transform", 3, 31, 42, 41, 40, None),
    "hull": ("HullMovingAverage", "hull_moving_average", 4, 277, 27, 257, 465, None),
    "ichimoku": ("IchimokuCloud", "ichimoku_cloud", 2, 16, 18, 76, 71, None),
    "kaufman": ("Kaufman", "kaufman", 4, 15, 14, 27, 22, None),
    "keltner": ("KeltnerChannel", "keltner_channel", 4, 17, 15, 20, 20, None),
    "kvo": ("KlingerVolumeOscillator", "klinger_volume_oscillator", 14, 84, 86, 107, 116, None),
    "kst": ("KnowSureThing", "know_sure_thing", 4, 267, 253, 515, 455, None),
    "macd": ("MACD", "macd", 17, 111, 101, 91, 76, None),
    "momentumindex": ("MomentumIndex", "momentum_index", 6, 10, 9, 15, 13, None),
    "mfi": ("MoneyFlowIndex", "money_flow_index", 6, 11, 9, 17, 12, None),
    "psar": ("ParabolicSAR", "parabolic_sar", 4, 6, 4, 5, 4, None),
    "pivot": ("PivotReversalStrategy", "pivot_reversal_strategy", 3, 51, 8, 127, 25, None),
    "pricechannel": ("PriceChannelStrategy", "price_channel_strategy", 3, 7, 6, 16, 15, None),
    "rsi": ("RelativeStrengthIndex", "relative_strength_index", 4, 35, 37, 37, 40, None),
    "rvi": ("RelativeVigorIndex", "relative_vigor_index", 5, 35, 36, 58, 57, None),
    "smi": ("SMIErgodicIndicator", "smi_ergodic_indicator", 4, 14, 14, 13, 13, None),
    "stochastic": ("StochasticOscillator", "stochastic_oscillator", 3, 47, 49, 72, 74, None),
    "trendsi": ("TrendStrengthIndex", "trend_strength_index", 6, 19, 18, 39, 38, None),
    "trix": ("Trix", "trix", 4, 42, 39, 35, 34, None),
    "truesi": ("TrueStrengthIndex", "true_strength_index", 3, 8, 8, 9, 12, None),
    "woodies": ("WoodiesCCI", "woodies_cci", 5, 28, 31, 42, 44, None),
}
# measured cost of the full-range real-code init harness (thorough); absent = not feasible / not measured
IND_F = {"psar": 6, "truesi": 11, "smi": 18, "macd": 44, "kvo": 55, "rsi": 59, "trix": 56, "cmf": 237, "cmo": 8,
         "aroon": 271, "mfi": 298, "donchian": 322, "ccindex": 99, "momentumindex": 457, "keltner": 249,
         "envelopes": 338, "dpo": 377, "efi": 214, "chaikinosc": 206, "adx": 342}
# bollinger, pricechannel: CaDiCaL out of memory at 16 GB; the other 14 (multi-window) were not attempted
# indicators with a reversal detector: configurations with left + right == 254 are their own class
SUM254 = {"awesome": 126, "coppock": 131, "hull": 157, "pivot": 49}
# quick-tier representatives of the per-indicator class harnesses (each failing harness costs a native replay)
Q_CLASS = {"kaufman_init_b255", "pivot_init_s_sum254"}
# class harnesses that pass today (validate() rejects 255): cheap, no replay -> quick tier
PASSING_CLASS = {"adx", "aroon", "awesome", "bollinger", "ccindex", "cmf", "dpo", "pivot", "psar", "smi", "truesi", "woodies"}
# init harnesses too heavy for the quick tier
T_ONLY = {"kst_init_s254", "kst_init_s255", "kst_init_b4", "kst_init_b255", "hull_init_s254", "hull_init_b4", "hull_init_b255",
          "hull_init_s_sum254", "coppock_init_s254", "coppock_init_s_sum254", "awesome_init_s_sum254"}


def to(cost):
    return int(max(600, 5 * cost + 120))


def c10():
    j = []

    def add(name, text, encodes, cost, tier="q", core=True, **kw):
        j.append(K(M + name, text, encodes=encodes, cost=cost, timeout=kw.pop("timeout", to(cost)), tier=tier, core=core, **kw))

    # ---- 1. method constructors -------------------------------------------------------
    for key, ty, f, minok, cost, tier, _ in WINDOWED:
        enc = [mnew(f, ty), WNEW]
        small = "" if minok == 0 else "; Err for length < %d" % minok
        if key != "linvol":
          add("c10_z_%s_new" % key, "%s::new, length symbolic 0..=254, first value concrete +0.0 (zero-fill allocation)%s "
            "(255 separately: c10_%s_new_255)" % (ty, small, key), enc, 8)
        add("c10_%s_new_rng" % key, "%s::new, length symbolic 0..=254, first value symbolic finite%s (255 separately: c10_%s_new_255)"
            % (ty, small, key), enc, cost, tier=tier, mem_gb=16)
        why = "(length + 1) / 2 overflows" if key == "swma" else "Window::new debug assertion"
        add("c10_%s_new_255" % key, "%s::new(255, v): the value class of the known finding (%s)" % (ty, why), enc, 5, tier="t")
    for key, ty, f, minok, chunks in CHUNKED:
        enc = [mnew(f, ty), WNEW]
        add("c10_z_%s_new" % key, "%s::new, length symbolic 0..=254, first value concrete +0.0; Err for length < %d "
            "(255 separately: c10_%s_new_255)" % (ty, minok, key), enc, 60 if key == "hma" else 8)
        for suf, lo, hi, cost, extra in chunks:
            rest = "" if key != "hma" else "; lengths 129..=254 with a symbolic first value are NOT decided (16 GB / 900 s exceeded), only by c10_z_hma_new"
            add("c10_%s_new_%s" % (key, suf), "%s::new, length symbolic %d..=%d, first value symbolic finite (chunks a-%s "
                "together: 0..=%d)%s" % (ty, lo, hi, chunks[-1][0], chunks[-1][2], rest), enc, cost, tier="t", core=False,
                mem_gb=16, extra=extra, timeout=to(cost) + 300)
        add("c10_%s_new_255" % key, "%s::new(255, v): the value class of the known finding (Window::new debug assertion)" % ty,
            enc, 5, tier="t")
    add("c10_vidya_new_rng", "Vidya::new, length symbolic 0..=255 (guards 0 and PeriodType::MAX itself)", [mnew("vidya", "Vidya"), WNEW], 6)
    add("c10_vidya_max_is_err", "Vidya::new(255, v) is Err", [mnew("vidya", "Vidya")], 4)
    for key, ty in EMA_FAMILY:
        add("c10_%s_new_rng" % key, "%s::new, length symbolic 0..=254; Err for 0 (255 separately: c10_%s_new_255)" % (ty, key),
            [mnew("ema", ty)], 4)
        add("c10_%s_new_255" % key, "%s::new(255, v): value class of the known finding (length + 1 overflows)" % ty,
            [mnew("ema", ty)], 3, tier="t")
    add("c10_rma_new_rng", "RMA::new, length symbolic 0..=255; Err for 0", [mnew("rma", "RMA")], 3)
    add("c10_wsma_new_rng", "WSMA::new, length symbolic 1..=255 (0 separately: c10_wsma_new_0)", [mnew("wsma", "WSMA")], 4)
    add("c10_wsma_new_0", "WSMA::new(0, v): value class of the known finding (length * 2 - 1 underflows)", [mnew("wsma", "WSMA")], 3, tier="t")
    add("c10_tsi_new_rng", "TSI::new(short, long), both symbolic 0..=254 (all 255x255 pairs); Err if either is 0 "
        "(a period of 255: c10_tsi_new_255)", [mnew("tsi", "TSI"), "src/methods/tsi.rs: TSI::new"], 9)
    add("c10_tsi_new_255", "TSI::new with short == 255 or long == 255: value class of the known finding", [mnew("tsi", "TSI")], 6, tier="t")
    for key, ty, c in (("upper_reversal", "UpperReversalSignal", 140), ("lower_reversal", "LowerReversalSignal", 140),
                       ("reversal", "ReversalSignal", 1260)):
        enc = [mnew("reversal", ty), "src/methods/reversal.rs: %s::new" % ty, WNEW]
        two = key == "reversal"  # two windows: CaDiCaL runs out of 16 GB, Kissat needed
        add("c10_%s_new_rng" % key, "%s::new(left, right), all 65536 pairs except left,right >= 1 with left + right == 254; "
            "Err if a side is 0 or left + right >= 255" % ty, enc, c, tier="t" if two else "q", mem_gb=16, core=not two,
            extra=("--solver", "kissat") if two else (), timeout=4500 if two else to(c))
        add("c10_%s_new_sum254" % key, "%s::new(left, right) with left + right == 254: value class of the known finding "
            "(Window::new(255, _))" % ty, enc, c, tier="t", mem_gb=16, core=not two,
            extra=("--solver", "kissat") if two else (), timeout=4500 if two else to(c))
    add("c10_cross_new", "Cross/CrossAbove/CrossUnder::new((), (a, b)), a, b symbolic finite: Ok",
        [mnew("cross", "Cross"), mnew("cross", "CrossAbove"), mnew("cross", "CrossUnder")], 7)
    add("c10_tr_heikinashi_new", "TR::new / HeikinAshi::new on a candle with symbolic finite fields: Ok",
        [mnew("tr", "TR"), mnew("heikin_ashi", "HeikinAshi")], 4)
    add("c10_collapse_new", "CollapseTimeframe::new(period), period any usize; Err for 0",
        [mnew("collapse_timeframe", "CollapseTimeframe<T>")], 4)
    conv = [mnew("conv", "Conv"), WNEW]
    add("c10_conv_new_small", "Conv::new(weights), weight vector of symbolic length 0..=4, symbolic finite weights; Err for empty",
        conv, 19)
    add("c10_conv_new_254", "Conv::new with 254 weights (concrete 0.5): Ok", conv, 236, tier="t")
    add("c10_conv_new_255", "Conv::new with 255 weights: value class of the known finding (Window::new(255, _))", conv, 240, tier="t")
    add("c10_conv_new_256", "Conv::new with 256 weights: Err", conv, 18)
    add("c10_renko_new", "Renko::new((brick, source)), brick any f64 (NaN, +-inf, <= 0, >= 1 included), any Source, "
        "concrete candle; Err outside [EPSILON, 1)", [mnew("renko", "Renko")], 4)
    for suf, b, c in (("b0005", "0.0005", 441), ("b01", "0.01", 520), ("b05", "0.05", 574), ("b5", "0.5", 900)):
        add("c10_renko_next_" + suf, "Renko(brick %s, Close): first price and next price symbolic in [0.01, 1e6], one next(): "
            "no panic (D9: block count truncates to 0, then len - 1)" % b,
            [mnew("renko", "Renko"), "src/methods/renko.rs: <Renko as Method>::next"], c, tier="t", core=(suf != "b5"),
            timeout=2700, mem_gb=16, allow=FLOAT_OK)
    add("c10_q_class_methods", "every method constructor at its known failing value class in one harness (symbolic selector): "
        "23 window-backed constructors, EMA/DMA/TMA/DEMA/TEMA/TSI and SWMA at length 255, WSMA at 0, the three reversal "
        "detectors at left + right == 254; first value +0.0",
        [WNEW, mnew("ema", "EMA"), mnew("swma", "SWMA"), mnew("wsma", "WSMA"), mnew("reversal", "ReversalSignal")], 55)

    # ---- 2. MA::init --------------------------------------------------------------------
    for kind, windowed, cls, cost in MA_KINDS:
        enc = [MA_INIT, "src/helpers/methods.rs: MA::ma_period", "src/helpers/methods.rs: MA::ma_type"]
        rng = "0..=255" if cls is None else ("1..=255" if cls == "0" else "0..=254")
        if cost is not None:
            add("c10_ma_init_" + kind + "_rng", "MA::%s(n).init(v), n symbolic %s, v symbolic finite; Err for documented too-small n"
                % (kind.upper(), rng), enc, cost, tier="t" if windowed else "q", core=not windowed, mem_gb=16)
        if windowed:
            add("c10_z_ma_init_" + kind, "MA::%s(n).init(0.0), n symbolic 0..=254, first value concrete +0.0 (zero-fill allocation)"
                % kind.upper(), enc, 60 if kind == "hma" else 10)
        if cls:
            add("c10_ma_init_%s_%s" % (kind, cls), "MA::%s(%s).init(v): value class of the known finding" % (kind.upper(), cls),
                enc, 5, tier="t")
    add("c10_q_class_ma_init", "MA::init at its known failing value classes in one harness: every kind except RMA, WSMA, Vidya "
        "at 255, WSMA at 0; first value +0.0", [MA_INIT], 160, mem_gb=16)

    # ---- 3. parsing ---------------------------------------------------------------------
    add("c10_parse_ma_len5", "str::parse::<MA> / MA::from_str on every ASCII text of length 0..=5 (symbolic bytes < 128): "
        "Ok or Err, no panic", ["src/helpers/methods.rs: <MA as FromStr>::from_str"], 376, tier="t", timeout=1800, mem_gb=16)
    add("c10_parse_ma_len6", "as c10_parse_ma_len5, length 0..=6", ["src/helpers/methods.rs: <MA as FromStr>::from_str"],
        900, tier="t", core=False, timeout=2700, mem_gb=16)
    for nm, txt in (("2byte_at6", "\"ema-\" + 2 symbolic ASCII bytes + any 2-byte character + 1 ASCII byte"), ("3byte_at5", "\"ema-\" + 1 ASCII + any 3-byte character + 1 ASCII"),
                    ("3byte_at6", "\"sma-\" + 2 ASCII + any 3-byte character + 1 ASCII"), ("4byte_at6", "\"linreg\" + any 4-byte character + 1 ASCII"),
                    ("2byte_at7", "\"trima-\" + 1 ASCII + any 2-byte character + 1 ASCII"), ("2byte_at3", "\"sm\" + 1 ASCII + any 2-byte character + 1 ASCII")):
        add("c10_parse_ma_utf8_" + nm, "MA::from_str on non-ASCII text: " + txt + " (multi-byte characters straddling byte offsets 3..9): returns Err, never panics",
            ["src/helpers/methods.rs: <MA as FromStr>::from_str"], 40, timeout=900)
    add("c10_parse_source_l0", "Source::from_str / try_from on the empty text: Err (texts of >= 2 symbolic bytes exceed 16 GB "
        "with CaDiCaL and Kissat: not decided)", ["src/core/candles.rs: <Source as FromStr>::from_str"], 372, tier="t",
        core=False, timeout=1800, mem_gb=16)

    # ---- 4. indicators -------------------------------------------------------------------
    for key, (ty, f, cv, cs, cs255, cb, cb255, _cf) in IND.items():
        enc = ["src/indicators/%s.rs: <%s as IndicatorConfig>::validate" % (f, ty)]
        enci = enc + ["src/indicators/%s.rs: <%s as IndicatorConfig>::init" % (f, ty)]
        ex = " (configurations with left + right == 254: c10_%s_init_s_sum254)" % key if key in SUM254 else ""

        def tier(n, default="q"):
            return "t" if n in T_ONLY else default
        add("c10_%s_validate" % key, "%s::validate(): every integer field any value, every float field any f64 (NaN/inf "
            "included), every MA kind and Source: returns" % ty, enc, cv)
        add("c10_%s_init_s254" % key, "%s::init(cfg, candle): period fields symbolic 0..=254, floats any f64, default MA kinds, "
            "Window::new replaced by its precondition (size <= 254); !validate() => Err%s" % (ty, ex), enci, cs,
            stubbing=True, tier=tier(key + "_init_s254"), core=key + "_init_s254" not in T_ONLY, allow=FLOAT_OK, mem_gb=16)
        if key != "psar":  # ParabolicSAR has no period field: the class is empty
          add("c10_%s_init_s255" % key, "%s::init: as _init_s, period fields 0..=255 with at least one == 255 (value class of the "
            "known findings where validate() has no upper bound)" % ty, enci, cs255, stubbing=True,
            tier="q" if key in PASSING_CLASS else "t",
            core=key + "_init_s255" not in T_ONLY, allow=FLOAT_OK, mem_gb=16)
        add("c10_%s_init_b4" % key, "%s::init, real Window::new: period fields symbolic in {0,1,2,3,4}, floats any f64, default MA "
            "kinds; !validate() => Err" % ty, enci + [WNEW], cb, tier=tier(key + "_init_b4"),
            core=key + "_init_b4" not in T_ONLY, allow=FLOAT_OK, mem_gb=16)
        n = key + "_init_b255"
        if key != "psar":
          add("c10_" + n, "%s::init, real code: period fields in {0,1,2,3,4,255} with at least one == 255" % ty, enci + [WNEW], cb255,
            tier="q" if n in Q_CLASS or key in PASSING_CLASS else "t", core=n not in T_ONLY, allow=FLOAT_OK, mem_gb=16)
        if key in IND_F:
            add("c10_%s_init_f254" % key, "%s::init, real code: every period field symbolic 0..=254, floats any f64, default MA kinds"
                % ty, enci + [WNEW], IND_F[key], tier="t", core=False, allow=FLOAT_OK, mem_gb=16, timeout=to(IND_F[key]) + 600)
        if key in SUM254:
            n = key + "_init_s_sum254"
            add("c10_" + n, "%s::init, Window::new stubbed: configurations with left + right == 254 (value class of the known "
                "finding: the reversal detector allocates Window::new(255, _))" % ty, enci, SUM254[key], stubbing=True,
                tier="q" if n in Q_CLASS else "t", core=n not in T_ONLY, allow=FLOAT_OK, mem_gb=16)
    # ---- 5. accepted instance, first next() (zero period accepted by validate) ---------------
    mfi = ["src/indicators/money_flow_index.rs: <MoneyFlowIndex as IndicatorConfig>::init",
           "src/indicators/money_flow_index.rs: <MoneyFlowIndexInstance as IndicatorInstance>::next"]
    ich = ["src/indicators/ichimoku_cloud.rs: <IchimokuCloud as IndicatorConfig>::init",
           "src/indicators/ichimoku_cloud.rs: <IchimokuCloudInstance as IndicatorInstance>::next"]
    add("c10_mfi_next_p1", "MoneyFlowIndex{period 1, zone 0.2}: init Ok, one next() on the concrete candle returns (complement of "
        "c10_mfi_next_p0 at its smallest value only; streams are the X engine's part)", mfi, 20)
    add("c10_mfi_next_p0", "MoneyFlowIndex{period 0}: rejected by init, or accepted by validate() and the first next() returns: value class of a repaired finding "
        "(push into an empty window)", mfi, 15, tier="t")
    add("c10_ichimoku_next_m1", "IchimokuCloud{l1 1, l2 2, l3 3, m 1}: init Ok, one next() returns (complement of c10_ichimoku_next_m0 "
        "at its smallest value only)", ich, 60)
    add("c10_ichimoku_next_m0", "IchimokuCloud{m 0}: rejected by init, or accepted by validate() and the first next() returns: value class of a repaired finding "
        "(push into an empty window)", ich, 40, tier="t")
    return j


PROP = {
    "id": "C10",
    "jobs": c10,
    "bounds": {
        "quick": "every method constructor with its length(s) fully symbolic (all 256 values / all pairs; heavy window-backed "
                 "ones with the first value fixed to +0.0, SMA/VWMA/Momentum/Past/Upper-/LowerReversal with a symbolic first value); "
                 "MA::init for the 7 window-less kinds with every length; every indicator: validate() on every field value, init with "
                 "periods 0..=254 against the Window::new precondition, init with the real code on periods {0..4}; the known failing "
                 "value classes in merged class harnesses",
        "thorough": "as quick, plus: symbolic first value for every window-backed constructor and MA kind (HMA only up to length "
                    "128), per-constructor and per-indicator class harnesses (255 / 0 / left+right == 254), Conv with 254/255 "
                    "weights, MA::from_str on all ASCII texts of length <= 5 (<= 6 best effort), Renko::next on symbolic prices for "
                    "brick sizes {0.0005, 0.01, 0.05, 0.5}, full-range real-code init for the indicators that fit",
    },
    "outside": ["streams on accepted instances (the X engine decides 'accepted instances never panic'); K only drives Renko::next once",
                "IndicatorConfig::init with MA kinds other than the indicator's default kind (every kind x every length is decided on MA::init itself)",
                "IndicatorConfig::init with the real Window::new and period fields in 5..=254 for the multi-window indicators (stubbed precondition instead)",
                "Source::from_str on non-empty symbolic text (exceeds 16 GB), MA::from_str on texts longer than 6 bytes or non-ASCII",
                "numeric IndicatorConfig::set values", "period_type_u16/u32/u64 and value_type_f32 builds"],
    "assumptions": ["Kani 0.68 / CBMC 6.11 model of rustc MIR, dev profile (debug assertions and overflow checks on)",
                    "the first input value / candle is an input, not a parameter: finite with 1e-150 < |x| < 1e150 or 0 (any_val), or the "
                    "concrete valid candle {open 1.0, high 1.5, low 0.5, close 1.2, volume 10.0}",
                    "IEEE exceptional float results (NaN, inf) are not panics: CBMC's NaN/float-overflow checks are allow-listed where float "
                    "parameters are unrestricted",
                    "*_init_s* harnesses replace Window::new by a stub that asserts the real function's debug assertion (size <= "
                    "PeriodType::MAX - 1) and returns a window of at most one element; sound because no constructor reads the window it "
                    "has just created (checked by reading every init); the real Window::new is driven by the method harnesses",
                    "the Example indicator (private fields) is not constructible from outside the crate"],
}
