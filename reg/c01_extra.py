from regbase import X


def jobs():
    j = []
    enc = ["src/core/window.rs: Window::{from_parts,push,newest,oldest,get,Index,len,is_empty,iter,iter_rev}, both iterators' next/size_hint/count/last"]
    for n in (1, 2, 3, 5, 8):
        for idx in sorted(set((0, 1 % n, n // 2, n - 1))):
            j.append(X("c01_from_parts", {"n": n, "idx": idx, "pushes": n + 1}, "Window::from_parts, capacity %d, oldest-index %d, symbolic contents: every observer and every iterator split against the abstract sequence, before and after each of %d pushes" % (n, idx, n + 1), cost=2 + n))
    for (n, idx) in ((200, 150), (254, 253), (129, 128)):
        j.append(X("c01_from_parts", {"n": n, "idx": idx, "pushes": 1}, "Window::from_parts, capacity %d, oldest-index %d (positions beyond 127/255 in PeriodType arithmetic): every observer and iterator split" % (n, idx), cost=60))
    return j
