from regbase import K, X

CT = ["src/methods/collapse_timeframe.rs: CollapseTimeframe::new", "src/methods/collapse_timeframe.rs: CollapseTimeframe::next",
      "src/core/sequence.rs: Sequence::collapse_timeframe", "src/core/candles.rs: Add<T: OHLCV> for Candle::add"]
HA = ["src/methods/heikin_ashi.rs: HeikinAshi::new", "src/methods/heikin_ashi.rs: HeikinAshi::next",
      "src/core/ohlcv.rs: OHLCV::ohlc4", "src/core/ohlcv.rs: OHLCV::validate"]
RO = ["src/methods/renko.rs: Renko::new", "src/methods/renko.rs: Renko::next",
      "src/methods/renko.rs: RenkoOutput::{next,size_hint,count,nth,last,len,is_empty,is_rising,is_falling}"]

# IEEE: inf + -inf inside the code under test is not a panic; the identities are asserted on the NaN as well
NAN_OPS = r"^NaN on (addition|subtraction|multiplication|division) @"
M = "c17_convert::"


def c17():
    j = []
    col = "period %d, %d symbolic candles (five arbitrary finite f64 fields each): Some exactly on every period-th call; first open / max high / min low / last close bit-exact; equal to Sequence::collapse_timeframe(period, false) on these fields%s"
    j.append(K(M + "c17_collapse_p1", col % (1, 3, "; volume bit-exact (identity)"), encodes=CT, cost=50, timeout=600))
    j.append(K(M + "c17_collapse_p2", col % (2, 5, ""), encodes=CT, cost=70, timeout=600))
    j.append(K(M + "c17_collapse_p3", col % (3, 7, ""), encodes=CT, cost=110, timeout=900))
    j.append(K(M + "c17_collapse_p4", col % (4, 9, ""), encodes=CT, cost=160, timeout=900))
    j.append(K(M + "c17_collapse_p0_rejected", "period 0 rejected, every period 1..=usize::MAX accepted", encodes=CT[:1], cost=3))

    rec = "HeikinAshi::new(first) + 2 steps, 15 unrestricted %s fields (NaN/inf included): open/close recursion bit-exact against the documented expressions (cvc5 back-end)"
    j.append(K(M + "c17_ha_recursion", rec % "f64", allow=[NAN_OPS], encodes=HA[:3], cost=80, timeout=900, extra=("--solver", "cvc5")))
    j.append(K(M + "c17_ha_recursion", rec % "f32", features=["f32"], allow=[NAN_OPS], encodes=HA[:3], cost=60, timeout=900, extra=("--solver", "cvc5")))
    j.append(K(M + "c17_ha_selection", "HeikinAshi::new(first) + 2 steps, unrestricted f64 fields: high = max(input high, open), low = min(input low, open), volume passes through",
               allow=[NAN_OPS], encodes=HA[:3], cost=25))
    val = "first and %s candle(s): validate() and low <= open <= high, prices in the magnitude window (%s), volume any accepted value: every output validates"
    j.append(K(M + "c17_ha_valid_step1", val % ("1 input", "f32: 1e-15..1e15"), features=["f32"], encodes=HA, cost=45, timeout=600))
    j.append(K(M + "c17_ha_valid_step2", val % ("2 input", "f32: 1e-15..1e15"), features=["f32"], encodes=HA, cost=75, timeout=900))
    j.append(K(M + "c17_ha_valid_step1", val % ("1 input", "f64: 1e-150..1e150"), encodes=HA, cost=85, timeout=900))
    j.append(K(M + "c17_ha_valid_step2", val % ("2 input", "f64: 1e-150..1e150"), tier="t", encodes=HA, cost=160, timeout=1200))
    # input class on which docs and validate() disagree (open outside [low, high] is accepted by validate()): known finding D10
    j.append(K(M + "c17_ha_valid_open_outside", "one step, input accepted by validate() but open outside [low, high] (f32 build): output validates? — isolates finding D10",
               features=["f32"], encodes=HA, cost=10))

    ro = "RenkoOutput reached through Renko::new((0.25, Close), 100) + one next(price), price symbolic in [30, 253) (0 blocks, 1..=2 falling, 1..=4 rising); "
    j.append(K(M + "c17_renko_iter_protocol", ro + "size_hint/len/count/is_empty/next/last agree before and after j <= len steps; fused", encodes=RO, cost=70, timeout=600))
    j.append(K(M + "c17_renko_iter_nth_within", ro + "nth(k), k < remaining, is the (k+1)-th next()", encodes=RO, cost=70, timeout=600))
    # nth past the end: known finding D11
    j.append(K(M + "c17_renko_iter_nth_beyond", ro + "nth(k), k >= remaining (k up to usize::MAX), is None — isolates finding D11", encodes=RO, cost=40, timeout=600))
    return j


def c17_all():
    import c17_extra
    return c17() + c17_extra.jobs()


PROP = {
    "id": "C17",
    "jobs": c17_all,
    "bounds": {
        "quick": "X: CollapseTimeframe periods 1..16 (all fields incl. summed volume over the reals) and 255..1000 (timing, open, close, volume); Renko brick algebra from a concrete start (brick 1/4, 2-3 symbolic prices: bricks iff boundary reached, contiguity, equal relative size, direction, count, total volume). K: CollapseTimeframe: periods 1..=4, 2*period+1 symbolic finite candles, timing + open/high/low/close (volume only for period 1). HeikinAshi: recursion and selections over 2 steps on unrestricted floats (f32 and f64); output validity over 1 step (f64) and 2 steps (f32) for inputs with open inside [low, high] and prices in the magnitude window. RenkoOutput iterator: states reachable by one Renko::next with brick 0.25 from price 100, at most 4 blocks",
        "thorough": "as quick; HeikinAshi output validity over 2 steps at f64",
    },
    "outside": ["CollapseTimeframe volume sums for period > 1 and periods > 4 (X engine, real arithmetic)",
                "Renko brick algebra and Renko::next at the brick boundary (X engine / separate boundary harnesses)",
                "RenkoOutput with arbitrary field values: the struct has private fields, no constructor and no Deserialize, so only outputs of Renko::next are covered",
                "HeikinAshi histories longer than 2 steps; prices outside the magnitude window (ohlc4's four-term sum overflows near the float maximum)"],
    "assumptions": ["Kani 0.68 / CBMC 6.11 model of rustc MIR and of IEEE-754 binary32/binary64 (round to nearest even)",
                    "c17_ha_recursion is decided with the cvc5 back-end (CBMC --smt2 with FPA theory); all others with CaDiCaL",
                    "CBMC's NaN side checks (inf + -inf) inside the code under test are allow-listed where inputs are unrestricted floats: IEEE NaN results are not panics",
                    "'valid input' for HeikinAshi is read as: validate() accepts AND low <= open <= high (the docs of validate); the remaining class accepted by validate() is isolated in c17_ha_valid_open_outside"],
}
