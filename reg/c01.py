from regbase import K, X

W = "src/core/window.rs: "
WIN_FNS = [W + f for f in ("Window::new", "Window::empty", "Window::from_parts", "From<Vec<T>>", "From<Box<[T]>>",
                           "Window::push", "Window::newest", "Window::oldest", "Window::get", "Window::slice_index",
                           "Index<PeriodType>::index", "Window::len", "Window::is_empty", "Window::as_slice",
                           "Window::iter", "Window::iter_rev", "WindowIterator::{next,size_hint,count,last}",
                           "ReversedWindowIterator::{next,size_hint,count,last}", "IntoIterator for &Window")]

PANIC_INDEX = r"Window index \{index\} is out of range"
PANIC_OOB = r"index out of bounds: the length is less than or equal to the given index @ .*window\.rs"


def c01():
    j = []
    cap = "capacity symbolic 1..=254, phase symbolic, contents symbolic u8"
    j.append(K("c01_window::c01_push_step", cap + "; one push from an arbitrary ring, symbolic observer index", encodes=WIN_FNS, cost=13))
    j.append(K("c01_window::c01_push_twice", cap + "; two pushes (wrap at any phase)", encodes=WIN_FNS, cost=16))
    j.append(K("c01_window::c01_observers", cap + "; every single-call observer, symbolic index 0..=255", encodes=WIN_FNS, cost=27))
    j.append(K("c01_window::c01_index_oob_panics", cap + "; Index with k >= N never returns", allow=[PANIC_INDEX], encodes=WIN_FNS, cost=2))
    j.append(K("c01_window::c01_new_is_n_copies", "Window::new(n, v), n symbolic 0..=254, one push", encodes=WIN_FNS, cost=8))
    j.append(K("c01_window::c01_empty_yields_nothing", "empty()/default(): every observer, symbolic index", encodes=WIN_FNS, cost=1))
    j.append(K("c01_window::c01_empty_last", "empty(): iter().last()/iter_rev().last() is None or panics",
               allow=[PANIC_OOB], encodes=WIN_FNS, cost=1))
    j.append(K("c01_window::c01_empty_index_panics", "empty(): Index never returns (either panic message is a panic)", allow=[PANIC_INDEX, PANIC_OOB], encodes=WIN_FNS, cost=1))
    j.append(K("c01_window::c01_from_vec", "From<Vec>/From<Box<[T]>>, length symbolic 1..=32", encodes=WIN_FNS, cost=7))
    j.append(K("c01_window::c01_from_parts_bad_index_panics", "from_parts with index >= len (len 0..=8) never returns",
               allow=[r"Index is out of slice's range"], encodes=WIN_FNS, cost=2))
    for n in (2, 3, 5):
        j.append(K("c01_window::c01_tiny_ring%d" % n, "capacity %d (concrete), phase and contents symbolic: from_parts represents buf[(idx+j) %% n]; one push" % n, encodes=WIN_FNS, cost=5))
    j.append(K("c01_window::c01_small_ring_sequence", "capacity symbolic 1..=8, phase and contents symbolic: the whole sequence through Index and iter_rev after from_parts, and after one push", encodes=WIN_FNS, cost=20))
    j.append(K("c01_window::c01_iter_split32", "capacity symbolic 1..=32, iter() split after symbolic j <= N items: next/size_hint/len/count/last of the rest, fused", encodes=WIN_FNS, cost=60, timeout=900))
    j.append(K("c01_window::c01_iter_rev_split32", "capacity symbolic 1..=32, iter_rev() split after symbolic j <= N items", encodes=WIN_FNS, cost=50, timeout=900))
    import c01_extra
    j += c01_extra.jobs()
    j.append(K("c01_window::c01_iter_split128", "capacity symbolic 1..=128, iter() split after symbolic j <= N items (deepening)", encodes=WIN_FNS, cost=1500, timeout=7200, tier="t", core=False, mem_gb=24))
    j.append(K("c01_window::c01_iter_rev_split128", "capacity symbolic 1..=128, iter_rev() split after symbolic j <= N items (deepening)", encodes=WIN_FNS, cost=1500, timeout=7200, tier="t", core=False, mem_gb=24))
    return j



PROP = {
    "id": "C01",
        "jobs": c01,
        "bounds": {
            "quick": "every capacity 0..=254, every rotation phase, symbolic u8 contents; one (two) push(es) and every single-call observer from an arbitrary ring state (inductive step over all histories); partially consumed iterators at capacity <= 32",
            "thorough": "as quick; partially consumed iterators at capacity <= 128",
        },
        "outside": ["element types with non-trivial Clone/Drop (parametricity argument only)",
                    "partially consumed iterators at capacities above the stated bound",
                    "the serialization clause is decided under C13"],
        "assumptions": ["Kani 0.68 / CBMC 6.11 model of rustc MIR (dev profile: debug assertions and overflow checks on)",
                        "arbitrary ring states are built with the public Window::from_parts; label type u8 stands for every element type (the container is parametric)",
                        "panics the property permits are allow-listed per harness by their message (Index out of range, from_parts asserts)"],
}


