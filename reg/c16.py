from regbase import K, X

A = "src/core/action.rs: "
CONV = [A + f for f in ("From<f64> for Action", "From<f32> for Action", "From<Option<f64>> for Action",
                        "From<Option<f32>> for Action", "From<&T> for Action", "from_normalized_f64_to_bounded")]
OBS = [A + f for f in ("Action::ratio", "Action::analog", "Action::sign", "Action::value", "Action::is_none",
                       "Action::is_some", "From<Action> for Option<ValueType>", "From<Action> for i8",
                       "From<Action> for Option<i8>")]
INT = [A + f for f in ("From<i8> for Action", "From<Option<i8>> for Action", "From<bool> for Action",
                       "Action::from_analog", "Default for Action")]
ALG = [A + f for f in ("Neg for Action", "Sub for Action")]
REL = [A + f for f in ("PartialEq for Action", "derived Ord/PartialOrd for Action")]

ALL = "all 513 actions (variant and u8 payload symbolic)"


def c16():
    j = []
    m = "c16_action::"
    j.append(K(m + "c16_from_f64_total", "every f64 bit pattern (NaN, infinities, subnormals, both zeros): total, NaN -> None, sign, saturation at +-1, analog/sign; Option<f64> and &f64 forms",
               encodes=CONV + OBS, cost=45, timeout=600))
    j.append(K(m + "c16_from_f64_monotone", "every pair of f64 bit patterns with x <= y: signed strength of from(x) <= that of from(y)",
               encodes=CONV, cost=45, timeout=600))
    j.append(K(m + "c16_from_f64_nearest", "every f64 in [-1,1]: strength is a nearest integer to |x|*255 (|x*255 - strength| <= 0.5, the break points action::tests expects)",
               encodes=CONV, cost=25, timeout=600))
    j.append(K(m + "c16_from_f32_total", "every f32 bit pattern: total, NaN -> None, sign, saturation, analog/sign; Option<f32> and &f32 forms",
               encodes=CONV + OBS, cost=25, timeout=600))
    j.append(K(m + "c16_from_f32_monotone", "every pair of f32 bit patterns with x <= y: monotone", encodes=CONV, cost=16, timeout=600))
    j.append(K(m + "c16_f32_widening", "every f32 bit pattern: from(x) is from(x as f64)", encodes=CONV, cost=13, timeout=600))
    for feat in ((), ("f32",)):
        vt = "ValueType=f32" if feat else "ValueType=f64"
        j.append(K(m + "c16_ratio_range", ALL + " x 2, " + vt + ": ratio in [-1,1], sign, +-1 exactly at full strength, strictly monotone in the signed payload",
                   features=feat, encodes=OBS, cost=13, timeout=600))
        j.append(K(m + "c16_ratio_roundtrip", ALL + ", " + vt + ": from(ratio(a)) == a (Option and unwrapped form), same variant unless zero strength",
                   features=feat, encodes=OBS + CONV, cost=13, timeout=600))
        j.append(K(m + "c16_neg", ALL + ", " + vt + ": neg is an involution, negates signed payload, analog and ratio",
                   features=feat, encodes=ALG + OBS, cost=6, timeout=300))
        j.append(K(m + "c16_analog_sign", ALL + ", " + vt + ": analog/sign/value/is_none/is_some agree with the sign of the payload and of ratio()",
                   features=feat, encodes=OBS, cost=4, timeout=300))
    j.append(K(m + "c16_from_int", "every i8 (pairs for monotonicity), Option<i8>, bool, from_analog, &i8, default", encodes=INT + OBS, cost=3, timeout=300))
    j.append(K(m + "c16_sub_same_sign_or_none", "all pairs of actions except opposite directions with non-zero right side: signed payload of a-b is clamp(sp a - sp b), None counting as 0",
               encodes=ALG, cost=4, timeout=300))
    j.append(K(m + "c16_sub_mixed_sign", "all pairs Buy(v1)/Sell(v2) and Sell(v1)/Buy(v2) with v2 >= 1 (2*256*255 pairs): same rule [known finding D3 class]",
               encodes=ALG, cost=3, timeout=300))
    j.append(K(m + "c16_sub_mixed_sign_total", "all opposite-direction pairs: subtraction is total and yields a signal with payload in range", encodes=ALG, cost=3, timeout=300))
    j.append(K(m + "c16_eq_equivalence", "all triples of actions: == reflexive, symmetric, transitive, != is its negation, equal iff same ratio", encodes=REL, cost=3, timeout=300))
    j.append(K(m + "c16_ord_total_order", "all triples of actions: cmp reflexive, antisymmetric, transitive; partial_cmp and the operators follow cmp", encodes=REL, cost=4, timeout=300))
    j.append(K(m + "c16_ord_eq_consistent", "all triples (a,b,c) with {a,b} != {Buy(0),Sell(0)}: a == b iff cmp(a,b) is Equal; equal actions compare alike against c",
               encodes=REL, cost=3, timeout=300))
    j.append(K(m + "c16_ord_eq_zero_pair", "{a,b} = {Buy(0),Sell(0)} in both orders, c any action: same consistency [known finding D4 class]",
               encodes=REL, cost=3, timeout=300))
    return j


PROP = {
    "id": "C16",
    "jobs": c16,
    "bounds": {
        "quick": "no bound inside the type: every one of the 513 actions (pairs / triples where the clause needs them), every i8, every f32 and every f64 bit pattern (pairs for monotonicity), symbolically; ratio-related clauses with ValueType f64 and f32",
        "thorough": "as quick",
    },
    "outside": ["Debug/Display formatting", "serde forms of Action (C13)",
                "the ordering is only required to be consistent with equality; that it does not follow the ratio (Buy(_) < None < Sell(_)) is not part of the property"],
    "assumptions": ["Kani 0.68 / CBMC 6.11 model of rustc MIR and of IEEE-754 binary32/binary64 (round-to-nearest-even; f64::round, clamp, abs as compiled by Kani)",
                    "ratios of results of neg/sub/eq are compared on the exact signed integer payload sp(a) = ratio(a)*255 instead of on floats; ratio() itself is checked to be strictly monotone in sp, sign-correct and within [-1,1]",
                    "consistency of ordering and equality is the std::cmp contract: a == b iff partial_cmp(a,b) == Some(Equal)"],
}
