from regbase import X


def jobs():
    j = []
    encc = ["src/methods/collapse_timeframe.rs: CollapseTimeframe::{new,next}", "src/core/candles.rs: Add for Candle"]
    for p in (1, 2, 3, 5, 8, 16):
        j.append(X("c17_collapse", {"period": p, "groups": 3}, "CollapseTimeframe period %d, 3 periods of symbolic candles: Some exactly on every period-th call; first open, highest high, lowest low, last close, summed volume (over the reals)" % p, cost=2, encodes=encc))
    for p in (255, 256, 300, 1000):
        j.append(X("c17_collapse", {"period": p, "groups": 2}, "CollapseTimeframe period %d (beyond PeriodType), 2 periods: emission timing, first open, last close, summed volume" % p, cost=5 + p / 100, encodes=encc))
    encr = ["src/methods/renko.rs: Renko::{new,next}, RenkoOutput::{next,len,is_rising,is_falling}"]
    j.append(X("c17_renko", {"t": 2, "b_den": 4, "p0": 128, "maxmul": 3}, "Renko brick 1/4 from price 128, 2 symbolic prices within (128/3, 128*3) (multi-brick jumps, reversals, exact boundaries): bricks iff boundary reached, direction, contiguity with the last brick, equal relative size, maximal count, total volume", cost=40, encodes=encr))
    j.append(X("c17_renko", {"t": 3, "b_den": 4, "p0": 128, "maxmul": 3}, "Renko brick 1/4, 3 symbolic prices (deepening)", tier="t", core=False, cost=600, timeout=4000, encodes=encr))
    j.append(X("c17_renko", {"t": 3, "b_den": 10, "p0": 100, "maxmul": 2}, "Renko brick 1/10 from 100, 3 symbolic prices within (50, 200)", tier="t", core=False, cost=1500, timeout=6000, encodes=encr))
    return j
