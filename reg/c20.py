from regbase import K, X, S

ENC = ["src/core/mod.rs: PeriodType / ValueType aliases", "src/core/window.rs", "src/methods/hma.rs (sqrt as PeriodType)", "src/methods/conv.rs (len as PeriodType)",
       "src/methods/highest_lowest_index.rs", "src/methods/reversal.rs", "src/methods/lin_reg.rs", "src/methods/sma.rs", "src/methods/wma.rs"]


def x_jobs():
    j = []
    for f in ("p16", "p32", "p64"):
        # same definitional equalities at lengths that fit the default type ...
        for m in ("sma", "wma", "hma", "linreg", "swma", "trima", "stdev", "conv"):
            n = 4 if m != "hma" else 9
            j.append(X("c02_" + m, {"n": n, "t": n + 3}, "%s length %d under %s: identical definitional identity as the default build (C02)" % (m, n, f), features=(f,), cost=5, encodes=ENC))
        j.append(X("c04_highest_index", {"n": 3, "t": 5, "mode": "fp"}, "HighestIndex length 3 under %s (index as PeriodType cast)" % f, features=(f,), cost=10, encodes=ENC))
        j.append(X("c04_smm", {"n": 2, "t": 4, "mode": "fp"}, "SMM length 2 under %s" % f, features=(f,), cost=10, encodes=ENC))
        # ... and beyond 255
        for (m, n) in (("sma", 255), ("sma", 300), ("wma", 256), ("hma", 257), ("hma", 300), ("linreg", 257), ("linreg", 400), ("integral", 300), ("momentum", 1000)):
            # quick: one length beyond 255 per arithmetic pattern (HMA: sqrt(257) = 16 no longer fits the u8-sized
            # assumptions; LinReg 400: the integer sums n^4-ish exceed 32 bits from length 338 on)
            quick = f == "p16" and ((n <= 300 and m in ("sma", "wma", "integral")) or (m, n) in (("hma", 257), ("linreg", 400)))
            j.append(X("c02_" + m, {"n": n, "t": n + 3}, "%s length %d (beyond the default PeriodType) under %s: identity with the definition at every step" % (m, n, f), features=(f,),
                       tier="q" if quick else "t", core=quick, cost=(160 if m == "hma" else 100 if (m, n) == ("linreg", 400) else 20 + n * n / 4000.0), timeout=2400, encodes=ENC))
    j.append(X("c07_long_stream", {"pre": 300, "t": 3, "left": 1, "right": 1, "n": 3, "mode": "fp", "max_paths": 100000}, "reversal detectors / arg-extremum trackers across step 255..300 under period_type_u16: definitional (nothing changes at 255)", features=("p16",), cost=120, timeout=1500, encodes=ENC))
    for f in ("f32",):
        for m in ("sma", "wma", "ema"):
            e = ("c03_" if m == "ema" else "c02_") + m
            j.append(X(e, {"n": 4, "t": 7, "shape": "f"} if m == "ema" else {"n": 4, "t": 7}, "%s length 4 under value_type_f32: the definitional identity over the reals does not depend on the float format (same obligation, feature on: the cfg-selected code paths are the ones interpreted)" % m, features=(f,), cost=3, encodes=ENC))
    j.append(X("c04_smm", {"n": 2, "t": 4, "mode": "fp"}, "SMM length 2 under unsafe_performance + period_type_u16", features=("up", "p16"), cost=10, encodes=ENC))
    return j


def jobs():
    j = x_jobs()
    try:
        import c20_k
        j += c20_k.k_jobs()
    except ImportError:
        pass
    return j


PROP = {
    "id": "C20",
    "jobs": jobs,
    "bounds": {"quick": "X: C02/C04 obligations re-run with PeriodType = u16/u32/u64 at small lengths and, for u16, window lengths 255, 256, 300; reversal/arg-extremum long stream under u16; f32 alias; K: Window beyond 255 and cast sites (see harness list)", "thorough": "lengths 255..1000 under all three wide types"},
    "outside": ["lengths of several thousand", "bit-identical results across widths are decided indirectly: every width satisfies the same definitional identity on the same symbolic inputs (integers are concrete in the executor, so a width-dependent difference would show as a different term, a panic event or a failed identity)",
                "single-precision rounding (value_type_f32): only the algebraic identity is decided"],
    "assumptions": ["the executor resolves PeriodType/ValueType from the selected feature set exactly as the cfg attributes in src/core/mod.rs do", "translator validation runs against a native build with the same features"],
}
