"""Indicator table, group H: DonchianChannel, IchimokuCloud, Envelopes, CoppockCurve, DetrendedPriceOscillator,
EaseOfMovement, EldersForceIndex, FisherTransform, HullMovingAverage (harnesses: rsx/harness/c05_h.rs)."""
MA_ALL = ["sma", "wma", "hma", "rma", "ema", "dma", "dema", "tma", "tema", "wsma", "swma", "trima", "linreg"]
MA_MAIN = ["ema", "sma", "wma", "rma", "dema"]
# averaging kinds that are convex combinations of their inputs (cannot leave the range of a positive source)
MA_CONVEX = ["sma", "wma", "rma", "ema", "dma", "tma", "wsma", "swma", "trima"]
MA_OVERSHOOT = ["hma", "dema", "tema", "linreg"]
SLOW = {"_tier": "t", "_core": False}

ICHI = {"l1": 1, "l2": 2, "l3": 3}

ROWS = [
    {"entry": "c05_donchian_channel", "indicator": "DonchianChannel", "aspects": ["values", "signals", "ranges"],
     "params": [{"n": 2, "t": 4}, {"n": 3, "t": 5}, {"n": 5, "t": 8}, {"n": 8, "t": 11}],
     "aspect_params": {"signals": [{"n": 2, "t": 4}, {"n": 3, "t": 5}, {"n": 5, "t": 8}, dict({"n": 8, "t": 11}, **SLOW)]},
     "bound": "period n, t steps of valid symbolic candles after the initial one (prehistory = initial candle); values: lower = lowest low, "
              "upper = highest high of the last n candles (exact), middle = their mean; signals: documented rule on the returned bounds "
              "(high >= upper -> buy, low <= lower -> sell, both -> none); ranges: every high/low of the last n candles inside [lower, upper], lower <= middle <= upper",
     "cost": 15},
    {"entry": "c05_ichimoku_cloud", "indicator": "IchimokuCloud", "aspects": ["values", "signals", "ranges"],
     "params": [dict(ICHI, m=1, src="close", t=4), dict(ICHI, m=2, src="tp", t=5), dict({"l1": 2, "l2": 3, "l3": 5}, m=3, src="close", t=8),
                dict({"l1": 3, "l2": 5, "l3": 8}, m=5, src="close", t=11, **SLOW)],
     "aspect_params": {"signals": [dict(ICHI, m=1, src="close", t=4), dict(ICHI, m=2, src="tp", t=5), dict({"l1": 2, "l2": 3, "l3": 5}, m=3, src="close", t=6),
                                   dict({"l1": 2, "l2": 3, "l3": 5}, m=3, src="tp", t=8, **SLOW)]},
     "bound": "periods (l1,l2,l3), displacement m, t steps of valid symbolic candles (prehistory = initial candle); values: tenkan/kijun = midpoint of highest high and "
              "lowest low over l1/l2 candles, span A = (tenkan+kijun)/2 and span B = l3 midpoint, both as computed m steps earlier; signals: crossing (tenkan x kijun, "
              "source x kijun) confirmed by source strictly above/below both spans and span A >/< span B, on the returned values; ranges: each line inside "
              "[lowest low, highest high] of the window it is built from (span A: the displaced l2 window)",
     "cost": 40},
    {"entry": "c05_envelopes", "indicator": "Envelopes", "aspects": ["values", "signals", "ranges"],
     "params": [{"ma": m, "src": "hl2", "src2": "close", "t": 5} for m in MA_ALL] + [{"ma": "sma", "src": "close", "src2": "open", "t": 5}, {"ma": "smm", "src": "hl2", "src2": "close", "t": 3}],
     "aspect_params": {"ranges": [{"ma": m, "src": "hl2", "src2": "close", "t": 5} for m in MA_CONVEX]
                       + [{"ma": m, "src": "hl2", "src2": "close", "t": 3} for m in MA_OVERSHOOT]},
     "bound": "MA period 3, k = 0.25, t steps of valid symbolic candles; values: upper/lower = (crate MA of source) * (1 +- k), third value = raw source2; signals: rule of the CODE "
              "(level condition on every step: source2 < lower -> buy, source2 > upper -> sell; the doc says 'crosses'); ranges: upper >= MA >= lower and upper >= lower "
              "(jobs with hma/dema/tema/linreg are expected to FAIL: these averages can be negative on positive prices, which inverts the bounds - reported defect)",
     "cost": 3},
    {"entry": "c05_coppock_curve", "indicator": "CoppockCurve", "aspects": ["values", "signals"],
     "params": [{"ma": m, "src": "close", "t": 3, "warm": 0, "l": 1, "r": 1} for m in MA_MAIN]
               + [{"ma": "ema", "src": "hl2", "t": 3, "warm": 0, "l": 1, "r": 1}, dict({"ma": "ema", "src": "close", "t": 4, "warm": 0, "l": 1, "r": 1}, **SLOW),
                  dict({"ma": "sma", "src": "close", "t": 4, "warm": 0, "l": 1, "r": 1}, **SLOW)],
     "aspect_params": {"signals": [{"ma": m, "src": "close", "t": 3, "warm": 0, "l": 1, "r": 1} for m in MA_MAIN]
                       + [dict({"ma": "ema", "src": "close", "t": 4, "warm": 0, "l": 1, "r": 1}, **SLOW)]},
     "bound": "ma1 period 3, signal-line period 2, ROC periods (3,2), reversal (left,right) = (l,r), t steps of valid symbolic candles; values: main = crate MA (from 0) of "
              "ROC_3 + ROC_2 of the source, ROC_k = (x - x_k)/x_k, signal line = crate MA (from 0) of main; signals on the returned values: main x 0, main x signal line "
              "(crossing rule), reversal points of main (direction as in the code: bottom -> buy, top -> sell; the doc sentence is cut off). Reversal rule: pivot >= the `left` "
              "older and > the `right` newer values, asserted from step left+right+1 on; during the detector's first left+right+1 steps the rule of the CODE is asserted "
              "(construction value 0 stands in for the first value until exceeded); warm=1 asserts the clean rule there instead",
     "cost": 25},
    {"entry": "c05_detrended_price_oscillator", "indicator": "DetrendedPriceOscillator", "aspects": ["values"],
     "params": [{"ma": m, "src": "close", "p": 4, "t": 6} for m in MA_ALL] + [{"ma": "sma", "src": "hl2", "p": 3, "t": 5}, {"ma": "ema", "src": "open", "p": 2, "t": 4},
                                                                              {"ma": "smm", "src": "close", "p": 3, "t": 3}],
     "bound": "MA period p, t steps of valid symbolic candles; value = source (p/2 + 1) steps ago (prehistory = initial candle) minus the crate MA(p) of the source; no signals (slice empty)",
     "cost": 3},
    {"entry": "c05_ease_of_movement", "indicator": "EaseOfMovement", "aspects": ["values", "signals"],
     "params": [{"ma": m, "p2": 1, "t": 4} for m in MA_ALL] + [{"ma": "sma", "p2": 2, "t": 4}, {"ma": "ema", "p2": 2, "t": 4}],
     "bound": "MA period 3, differencing period p2, t steps of valid symbolic candles; value = crate MA (from 0) of [(high+low)/2 - (high+low)/2 p2 steps ago] * (high - low) / volume, "
              "0 for a bar with zero volume (scale factor 1); signal: value x 0 (crossing rule on the returned value)",
     "cost": 8},
    {"entry": "c05_elders_force_index", "indicator": "EldersForceIndex", "aspects": ["values", "signals"],
     "params": [{"ma": m, "src": "close", "p2": 1, "t": 4} for m in MA_ALL] + [{"ma": "ema", "src": "close", "p2": 2, "t": 4}, {"ma": "sma", "src": "open", "p2": 2, "t": 4}],
     "bound": "MA period 3, change period p2, t steps of valid symbolic candles; value = crate MA (from 0) of (source - source p2 steps ago) * volume; for p2 > 1 the CODE multiplies by the "
              "sum of the volumes of the last p2 candles (doc silent) - asserted as such; signal: value x 0 (crossing rule on the returned value)",
     "cost": 5},
    {"entry": "c05_fisher_transform", "indicator": "FisherTransform", "aspects": ["values", "signals"],
     "params": [{"ma": m, "src": "close", "n": 2, "t": 2} for m in MA_MAIN] + [{"ma": "sma", "src": "close", "n": 2, "t": 3}, {"ma": "sma", "src": "tp", "n": 2, "t": 3},
                                                                              {"ma": "sma", "src": "close", "n": 3, "t": 2}, dict({"ma": "sma", "src": "tp", "n": 2, "t": 4}, **SLOW)],
     "aspect_params": {"signals": [{"ma": m, "src": "close", "n": 2, "t": 2} for m in MA_MAIN] + [dict({"ma": "sma", "src": "close", "n": 2, "t": 3}, **SLOW)]},
     "bound": "period1 n, zone 1.5, signal MA period 2, t steps of valid symbolic candles; atanh is an uninterpreted function (reference applies the same function to an independently "
              "computed argument); values (recursion and clamp follow the CODE, the doc only gives FT = atanh(x)): x = 2*(src - lowest)/(highest - lowest) - 1 over the last n sources clamped to "
              "+-0.999, value = atanh(x) + previous value/2 (atanh term 0 on a flat window), signal line = crate MA (from 0) of value; signals (doc vague, rule of the CODE): s1 = Action::from(value/zone) "
              "when the value turns up (crosses its previous value) while negative or turns down while positive, s2 = Action::from(line/zone) when value crosses the line in the direction of the last turn "
              "with the line on the matching side of 0; otherwise the zero-strength action",
     "cost": 40},
    {"entry": "c05_hull_moving_average", "indicator": "HullMovingAverage", "aspects": ["values", "signals"],
     "params": [{"src": "close", "n": 3, "t": 5, "warm": 0, "l": 1, "r": 1}, {"src": "close", "n": 4, "t": 5, "warm": 0, "l": 1, "r": 1}, {"src": "hl2", "n": 4, "t": 5, "warm": 0, "l": 1, "r": 1},
                dict({"src": "close", "n": 4, "t": 6, "warm": 0, "l": 1, "r": 1}, **SLOW)],
     "aspect_params": {"signals": [{"src": "close", "n": 3, "t": 5, "warm": 0, "l": 1, "r": 1}, {"src": "close", "n": 4, "t": 5, "warm": 0, "l": 1, "r": 1}, {"src": "hl2", "n": 4, "t": 5, "warm": 0, "l": 1, "r": 1},
                                   {"src": "close", "n": 3, "t": 5, "warm": 0, "l": 2, "r": 1}, {"src": "close", "n": 3, "t": 5, "warm": 0, "l": 1, "r": 2},
                                   dict({"src": "close", "n": 3, "t": 6, "warm": 0, "l": 2, "r": 1}, **SLOW), dict({"src": "close", "n": 3, "t": 6, "warm": 0, "l": 1, "r": 2}, **SLOW)]},
     "bound": "period n, reversal (left,right) = (l,r), t steps of valid symbolic candles (prehistory = initial candle); value = WMA_floor(sqrt n)( 2*WMA_{n/2} - WMA_n ) of the source written out "
              "over the explicit history; signal: reversal points of the returned value (bottom -> buy, top -> sell; pivot >= the `left` older and > the `right` newer values) from step left+right+1 on; "
              "during the detector's first left+right+1 steps the rule of the CODE is asserted (construction value = first source stands in for the first HMA value until exceeded); warm=1 asserts the clean rule there instead",
     "cost": 15},
]
