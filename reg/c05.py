from regbase import K, X
import ind_table

ALL = 36


def jobs():
    j = ind_table.jobs_for_aspect("values")
    try:
        import c05_extra
        j += c05_extra.jobs()
    except ImportError:
        pass
    return j


def _cov():
    c = ind_table.covered("values")
    return "%d of %d indicators have a harness for this aspect: %s" % (len(c), ALL, ", ".join(c))


PROP = {
    "id": "C05",
    "jobs": jobs,
    "bounds": {"quick": "X/real, valid symbolic candle streams, periods shrunk to 2..4, 3..6 steps; " + _cov(), "thorough": "as quick plus deepening jobs"},
    "outside": ["indicators without a harness for this aspect are NOT covered (see the list in bounds)", "large periods, long streams, IEEE rounding (allowance only on native replay)",
                "the moving averages inside an indicator are taken from the crate (their correctness is C02/C03/C15): what is decided is the indicator's formula and wiring"],
    "assumptions": ["floats are SMT reals", "valid candle = positive ordered prices, non-negative volume", "translator validation per job; native replay before VIOLATION",
                    "division by a symbolic divisor that the code does not guard adds the assumption 'divisor != 0' (counted per job as div_assumptions)"],
}
