from regbase import K, X

MA = ["sma", "wma", "hma", "rma", "ema", "dma", "dema", "tma", "tema", "wsma", "smm", "swma", "trima", "linreg", "vidya"]
OTHER = ["integral", "derivative", "momentum", "roc", "stdev", "meanabsdev", "medianabsdev", "cci", "linvol", "tsi", "conv", "vwma"]
INDICATORS = ["Aroon", "AverageDirectionalIndex", "AwesomeOscillator", "BollingerBands", "ChaikinMoneyFlow", "ChandeKrollStop",
              "ChandeMomentumOscillator", "CommodityChannelIndex", "CoppockCurve", "DetrendedPriceOscillator", "DonchianChannel", "EaseOfMovement",
              "EldersForceIndex", "Envelopes", "FisherTransform", "HullMovingAverage", "IchimokuCloud", "Kaufman", "KeltnerChannel",
              "KlingerVolumeOscillator", "KnowSureThing", "MACD", "MomentumIndex", "MoneyFlowIndex", "ParabolicSAR", "PivotReversalStrategy",
              "PriceChannelStrategy", "RelativeStrengthIndex", "RelativeVigorIndex", "SMIErgodicIndicator", "StochasticOscillator", "Trix",
              "TrendStrengthIndex", "TrueStrengthIndex", "WoodiesCCI"]
# ChaikinOscillator is built on the windowless (cumulative) ADI: exempt by the statement
ENC = ["src/methods/*.rs", "src/helpers/methods.rs: MA::init, MAInstance::next", "src/core/window.rs"]


def x_jobs():
    j = []
    for k in MA:
        for n in (1, 2, 3, 5, 8, 64, 254):
            if (n < 2 and k in ("hma", "linreg")) or (k == "wsma" and n > 127):
                continue
            j.append(X("c08_ma_constant", {"kind": k, "n": n, "k": min(n, 24) + 3}, "%s length %d created from v and fed v: every output equals v (over the reals)" % (k, n), cost=1 + n / 60.0, encodes=ENC))
        for n in (1, 2, 3, 4):
            if n < 2 and k in ("hma", "linreg"):
                continue
            for jj in (1, 3):
                heavy = k == "smm" and n >= 3
                j.append(X("c08_ma_prefix", {"kind": k, "n": n, "j": jj, "m": 4}, "%s length %d: %d extra leading copies of the first element, then 4 symbolic inputs: same outputs as without the copies" % (k, n, jj),
                           cost=40 if heavy else 2, tier="t" if (heavy and n == 4) else "q", core=not (heavy and n == 4), encodes=ENC))
    for k in OTHER:
        for n in (1, 2, 3, 5, 8):
            if n < 2 and k in ("stdev", "medianabsdev"):
                continue
            j.append(X("c08_method_constant", {"kind": k, "n": n, "k": n + 3}, "%s length %d on a constant input: constant output (0 for the difference/dispersion kinds, the value for Conv/VWMA)" % (k, n), encodes=ENC))
    for n in (1, 2, 3, 5):
        j.append(X("c08_candle_method_constant", {"n": n, "k": n + 3}, "windowed ADI(%d), TR, HeikinAshi on a constant valid candle: constant outputs" % n, encodes=ENC))
    for k in ("integral", "derivative", "stdev", "linvol", "meanabsdev", "momentum"):
        for n in (1, 2, 3, 4):
            if n < 2 and k == "stdev":
                continue
            j.append(X("c08_method_prefix", {"kind": k, "n": n, "j": 2, "m": 4}, "%s length %d: 2 extra leading copies of the first element change no later output" % (k, n), encodes=ENC))
    for ind in INDICATORS:
        skip = 1 if ind == "ParabolicSAR" else 0
        j.append(X("ind_constant_dispatch", {"kind": ind, "k": 6, "skip": skip}, "%s (default configuration) initialised with a valid symbolic candle and fed that candle 6 times: values constant over the reals, signals constant exactly%s" % (ind, " (from the second step, as the statement allows for the SAR)" if skip else ""),
                   cost=3, encodes=["src/indicators/*.rs: %s::{init,next}" % ind, "src/helpers/methods.rs", "src/methods/*.rs", "src/core/indicator/result.rs", "src/core/action.rs"]))
    for ind in "AwesomeOscillator BollingerBands ChandeKrollStop ChandeMomentumOscillator CommodityChannelIndex CoppockCurve DetrendedPriceOscillator EldersForceIndex Envelopes FisherTransform HullMovingAverage IchimokuCloud Kaufman KeltnerChannel MACD MomentumIndex RelativeStrengthIndex SMIErgodicIndicator TrendStrengthIndex Trix TrueStrengthIndex WoodiesCCI".split():
        j.append(X("ind_constant_open_dispatch", {"kind": ind, "k": 14, "skip": 0}, "%s with source = Open (other parameters default), initialised with a valid symbolic candle (open and close independent) and fed that candle 14 times (beyond the default delay windows): values constant over the reals, signals constant exactly" % ind,
                   cost=3, encodes=["src/indicators/*.rs: %s::{init,next}" % ind, "src/core/ohlcv.rs: OHLCV::source", "src/helpers/methods.rs", "src/methods/*.rs"]))
    return j


def jobs():
    j = x_jobs()
    try:
        import c08_k
        j += c08_k.k_jobs()
    except ImportError:
        pass
    return j


PROP = {
    "id": "C08",
    "jobs": jobs,
    "bounds": {
        "quick": "X/real: every MA kind, every other arithmetic method (lengths <= 8, 64, 254 for MAs), the candle methods and 35 indicators in their default configuration on a constant input: outputs constant (values over the reals, signals exactly); extra leading copies of the first element (1 or 3) followed by 4 symbolic inputs change nothing (lengths <= 4). K: exact kinds bit-precisely (see harness list)",
        "thorough": "as quick plus SMM prefix at length 4",
    },
    "outside": ["drift of accumulators under IEEE rounding (constant up to rounding is decided only as exact constancy over the reals)",
                "windowless Integral/ADI and ChaikinOscillator (built on the cumulative ADI), CollapseTimeframe, Renko volume: exempt by the statement",
                "non-default indicator configurations"],
    "assumptions": ["floats are SMT reals", "valid candle = positive ordered prices, non-negative volume", "translator validation per job; native replay before VIOLATION"],
}
